// Translator: reads declarative data from the Go sources under <repo> and emits Coq files
// under <out> (coq/Gen). It recognises a fixed set of declaration shapes and fails loudly
// (exit 2, message "TRANSLATOR: ...") on anything it does not recognise, so that a change
// of shape breaks the tie instead of being silently ignored.
//
// usage: translator <repo> <outdir>
package main

import (
	"fmt"
	"go/ast"
	"go/parser"
	"go/token"
	"os"
	"path/filepath"
	"reflect"
	"runtime"
	"sort"
	"strconv"
	"strings"
)

// fail stops the generator that called it: main reports the failure together with the table the
// generator writes (TRANSLATOR-FAILED <file>: ...), goes on with the other generators and exits 2,
// so that only the properties whose proofs read that table lose their tie to the source.
type translatorFailure struct{ msg string }

func fail(format string, a ...interface{}) {
	panic(translatorFailure{fmt.Sprintf(format, a...)})
}

var failures int

func runGen(output string, g func()) {
	defer func() {
		if r := recover(); r != nil {
			f, ok := r.(translatorFailure)
			if !ok {
				f = translatorFailure{fmt.Sprintf("generator panicked: %v", r)}
			}
			failures++
			fmt.Fprintf(os.Stderr, "TRANSLATOR-FAILED %s: TRANSLATOR: %s\n", output, f.msg)
		}
	}()
	g()
}

type pkg struct {
	dir   string
	fset  *token.FileSet
	files map[string]*ast.File
}

func load(dir string) *pkg {
	fset := token.NewFileSet()
	p := &pkg{dir: dir, fset: fset, files: map[string]*ast.File{}}
	ents, err := os.ReadDir(dir)
	if err != nil {
		fail("cannot read %s: %v", dir, err)
	}
	for _, e := range ents {
		n := e.Name()
		if e.IsDir() || !strings.HasSuffix(n, ".go") || strings.HasSuffix(n, "_test.go") || strings.HasPrefix(n, "zz_verif") {
			continue
		}
		f, err := parser.ParseFile(fset, filepath.Join(dir, n), nil, parser.ParseComments)
		if err != nil {
			fail("parse %s: %v", n, err)
		}
		p.files[n] = f
	}
	return p
}

// valueSpec finds a package-level const or var by name.
func (p *pkg) valueSpec(name string) (ast.Expr, *ast.GenDecl, int, *ast.ValueSpec) {
	for _, f := range p.files {
		for _, d := range f.Decls {
			gd, ok := d.(*ast.GenDecl)
			if !ok || (gd.Tok != token.CONST && gd.Tok != token.VAR) {
				continue
			}
			for si, s := range gd.Specs {
				vs := s.(*ast.ValueSpec)
				for i, n := range vs.Names {
					if n.Name == name {
						if i < len(vs.Values) {
							return vs.Values[i], gd, si, vs
						}
						return nil, gd, si, vs
					}
				}
			}
		}
	}
	return nil, nil, 0, nil
}

func (p *pkg) funcDecl(name string) *ast.FuncDecl {
	for _, f := range p.files {
		for _, d := range f.Decls {
			if fd, ok := d.(*ast.FuncDecl); ok && fd.Name.Name == name && fd.Recv == nil {
				return fd
			}
		}
	}
	return nil
}

func (p *pkg) method(recv, name string) *ast.FuncDecl {
	for _, f := range p.files {
		for _, d := range f.Decls {
			fd, ok := d.(*ast.FuncDecl)
			if !ok || fd.Name.Name != name || fd.Recv == nil || len(fd.Recv.List) != 1 {
				continue
			}
			t := fd.Recv.List[0].Type
			if st, ok := t.(*ast.StarExpr); ok {
				t = st.X
			}
			if id, ok := t.(*ast.Ident); ok && id.Name == recv {
				return fd
			}
		}
	}
	return nil
}

func (p *pkg) typeSpec(name string) *ast.TypeSpec {
	for _, f := range p.files {
		for _, d := range f.Decls {
			gd, ok := d.(*ast.GenDecl)
			if !ok || gd.Tok != token.TYPE {
				continue
			}
			for _, s := range gd.Specs {
				ts := s.(*ast.TypeSpec)
				if ts.Name.Name == name {
					return ts
				}
			}
		}
	}
	return nil
}

// ---- tiny constant evaluator: ints and strings, + - * /, parentheses, conversions, iota ----
type val struct {
	isStr bool
	s     string
	i     int64
}

func (p *pkg) eval(e ast.Expr, iota int64) val {
	switch x := e.(type) {
	case *ast.BasicLit:
		switch x.Kind {
		case token.INT:
			n, err := strconv.ParseInt(x.Value, 0, 64)
			if err != nil {
				fail("int literal %s", x.Value)
			}
			return val{i: n}
		case token.STRING:
			s, err := strconv.Unquote(x.Value)
			if err != nil {
				fail("string literal %s", x.Value)
			}
			return val{isStr: true, s: s}
		}
	case *ast.ParenExpr:
		return p.eval(x.X, iota)
	case *ast.Ident:
		if x.Name == "iota" {
			return val{i: iota}
		}
		return p.constByName(x.Name)
	case *ast.SelectorExpr:
		// e.g. time.Hour etc. are not supported; macaroon.V2 not needed
		fail("unsupported selector in constant expression: %v", x.Sel.Name)
	case *ast.CallExpr:
		// conversion T(x) or int64(math.Pow(2, 53))
		if len(x.Args) == 1 {
			if id, ok := x.Fun.(*ast.Ident); ok {
				_ = id
				return p.eval(x.Args[0], iota)
			}
		}
		if sel, ok := x.Fun.(*ast.SelectorExpr); ok && sel.Sel.Name == "Pow" && len(x.Args) == 2 {
			b := p.eval(x.Args[0], iota)
			ex := p.eval(x.Args[1], iota)
			r := int64(1)
			for k := int64(0); k < ex.i; k++ {
				r *= b.i
			}
			return val{i: r}
		}
		fail("unsupported call in constant expression")
	case *ast.BinaryExpr:
		a := p.eval(x.X, iota)
		b := p.eval(x.Y, iota)
		if a.isStr && b.isStr && x.Op == token.ADD {
			return val{isStr: true, s: a.s + b.s}
		}
		if a.isStr || b.isStr {
			fail("unsupported string operation")
		}
		switch x.Op {
		case token.ADD:
			return val{i: a.i + b.i}
		case token.SUB:
			return val{i: a.i - b.i}
		case token.MUL:
			return val{i: a.i * b.i}
		case token.QUO:
			return val{i: a.i / b.i}
		case token.SHL:
			return val{i: a.i << uint(b.i)}
		}
		fail("unsupported operator %v", x.Op)
	case *ast.UnaryExpr:
		a := p.eval(x.X, iota)
		if x.Op == token.SUB {
			return val{i: -a.i}
		}
	}
	fail("unsupported constant expression %s", reflect.TypeOf(e))
	return val{}
}

func (p *pkg) constByName(name string) val {
	e, gd, si, _ := p.valueSpec(name)
	if gd == nil {
		fail("constant %s not found in %s", name, p.dir)
	}
	if e == nil {
		// implicit repetition inside a const block (iota)
		for k := si; k >= 0; k-- {
			vs := gd.Specs[k].(*ast.ValueSpec)
			if len(vs.Values) > 0 {
				return p.eval(vs.Values[0], int64(si))
			}
		}
		fail("constant %s has no value", name)
	}
	return p.eval(e, int64(si))
}

// ---- Coq emission helpers ----
func coqBytes(s string) string {
	if s == "" {
		return "([] : list N)"
	}
	var b strings.Builder
	b.WriteString("[")
	for i := 0; i < len(s); i++ {
		if i > 0 {
			b.WriteString("; ")
		}
		b.WriteString(strconv.Itoa(int(s[i])))
	}
	b.WriteString("]%N")
	return b.String()
}

func coqZ(i int64) string {
	if i < 0 {
		return "(" + strconv.FormatInt(i, 10) + ")%Z"
	}
	return strconv.FormatInt(i, 10) + "%Z"
}

func coqBytesList(l []string) string {
	if len(l) == 0 {
		return "([] : list (list N))"
	}
	parts := make([]string, len(l))
	for i, s := range l {
		parts[i] = coqBytes(s)
	}
	return "[" + strings.Join(parts, ";\n      ") + "]"
}

const header = "(* GENERATED by /verif/translator from the Go sources of /repo on every check run. Do not edit. *)\nFrom Coq Require Import List NArith ZArith.\nImport ListNotations.\n\n"

// exprName renders an identifier-like expression (Ident, pkg.Ident, true/false, string literal)
func (p *pkg) exprName(e ast.Expr) string {
	switch x := e.(type) {
	case *ast.Ident:
		return x.Name
	case *ast.SelectorExpr:
		return p.exprName(x.X) + "." + x.Sel.Name
	case *ast.BasicLit:
		if x.Kind == token.STRING {
			s, _ := strconv.Unquote(x.Value)
			return s
		}
		return x.Value
	case *ast.CallExpr:
		// RoomVersion("org.matrix.msc3667")
		if len(x.Args) == 1 {
			return p.exprName(x.Args[0])
		}
	}
	fail("unsupported value expression %s", reflect.TypeOf(e))
	return ""
}

// ---- GenConsts ----
func genConsts(repo, out string) {
	root := load(repo)
	tok := load(filepath.Join(repo, "tokens"))
	fcl := load(filepath.Join(repo, "fclient"))
	var b strings.Builder
	b.WriteString(header)
	zc := func(name string, v val) {
		if v.isStr {
			fmt.Fprintf(&b, "Definition %s : list N := %s.\n", name, coqBytes(v.s))
		} else {
			fmt.Fprintf(&b, "Definition %s : Z := %s.\n", name, coqZ(v.i))
		}
	}
	zc("gen_tokens_default_duration", tok.constByName("defaultDuration"))
	zc("gen_tokens_user_prefix", tok.constByName("UserPrefix"))
	zc("gen_tokens_time_prefix", tok.constByName("TimePrefix"))
	zc("gen_tokens_gen", tok.constByName("Gen"))
	zc("gen_max_id_length", root.constByName("maxIDLength"))
	zc("gen_max_event_length", root.constByName("maxEventLength"))
	zc("gen_creator_power_level", root.constByName("CreatorPowerLevel"))
	zc("gen_well_known_max_size", fcl.constByName("WellKnownMaxSize"))

	// PowerLevelContent.Defaults: sequence of assignments c.X = <int> and the notifications map
	fd := root.method("PowerLevelContent", "Defaults")
	if fd == nil {
		fail("PowerLevelContent.Defaults not found")
	}
	type kv struct {
		k string
		v int64
	}
	var defaults []kv
	var notif []kv
	for _, st := range fd.Body.List {
		as, ok := st.(*ast.AssignStmt)
		if !ok || len(as.Lhs) != 1 || len(as.Rhs) != 1 {
			fail("PowerLevelContent.Defaults: unrecognised statement")
		}
		sel, ok := as.Lhs[0].(*ast.SelectorExpr)
		if !ok {
			fail("PowerLevelContent.Defaults: unrecognised assignment target")
		}
		if cl, ok := as.Rhs[0].(*ast.CompositeLit); ok {
			if sel.Sel.Name != "Notifications" {
				fail("PowerLevelContent.Defaults: unexpected map field %s", sel.Sel.Name)
			}
			for _, el := range cl.Elts {
				kve := el.(*ast.KeyValueExpr)
				notif = append(notif, kv{root.eval(kve.Key, 0).s, root.eval(kve.Value, 0).i})
			}
			continue
		}
		defaults = append(defaults, kv{sel.Sel.Name, root.eval(as.Rhs[0], 0).i})
	}
	b.WriteString("Definition gen_pl_defaults : list (list N * Z) :=\n  [")
	for i, d := range defaults {
		if i > 0 {
			b.WriteString(";\n   ")
		}
		fmt.Fprintf(&b, "(%s, %s) (* %s *)", coqBytes(d.k), coqZ(d.v), d.k)
	}
	b.WriteString("].\n")
	b.WriteString("Definition gen_pl_notification_defaults : list (list N * Z) :=\n  [")
	for i, d := range notif {
		if i > 0 {
			b.WriteString(";\n   ")
		}
		fmt.Fprintf(&b, "(%s, %s) (* %s *)", coqBytes(d.k), coqZ(d.v), d.k)
	}
	b.WriteString("].\n")

	// lenientByteLimitRoomVersions: map literal with keys
	e, _, _, _ := root.valueSpec("lenientByteLimitRoomVersions")
	cl, ok := e.(*ast.CompositeLit)
	if !ok {
		fail("lenientByteLimitRoomVersions is not a composite literal")
	}
	var lenient []string
	for _, el := range cl.Elts {
		kve, ok := el.(*ast.KeyValueExpr)
		if !ok {
			fail("lenientByteLimitRoomVersions: unrecognised element")
		}
		lenient = append(lenient, root.versionName(kve.Key))
	}
	sort.Strings(lenient)
	fmt.Fprintf(&b, "Definition gen_lenient_byte_limit_versions : list (list N) :=\n     %s.\n", coqBytesList(lenient))

	// spec/eventtypes.go string constants
	sp := load(filepath.Join(repo, "spec"))
	var names []string
	f := sp.files["eventtypes.go"]
	if f == nil {
		fail("spec/eventtypes.go not found")
	}
	for _, d := range f.Decls {
		gd, ok := d.(*ast.GenDecl)
		if !ok || gd.Tok != token.CONST {
			continue
		}
		for _, s := range gd.Specs {
			vs := s.(*ast.ValueSpec)
			for _, n := range vs.Names {
				names = append(names, n.Name)
			}
		}
	}
	sort.Strings(names)
	b.WriteString("Definition gen_spec_eventtypes : list (list N * list N) :=\n  [")
	first := true
	for _, n := range names {
		v := sp.constByName(n)
		if !v.isStr {
			continue
		}
		if !first {
			b.WriteString(";\n   ")
		}
		first = false
		fmt.Fprintf(&b, "(%s, %s) (* %s = %q *)", coqBytes(n), coqBytes(v.s), n, v.s)
	}
	b.WriteString("].\n")
	write(filepath.Join(out, "GenConsts.v"), b.String())
}

// versionName resolves a map key of roomVersionMeta to the version string
func (p *pkg) versionName(e ast.Expr) string {
	switch x := e.(type) {
	case *ast.Ident:
		v := p.constByName(x.Name)
		if !v.isStr {
			fail("room version constant %s is not a string", x.Name)
		}
		return v.s
	case *ast.BasicLit:
		s, err := strconv.Unquote(x.Value)
		if err != nil {
			fail("room version literal")
		}
		return s
	case *ast.CallExpr:
		if len(x.Args) == 1 {
			return p.versionName(x.Args[0])
		}
	}
	fail("unrecognised room version key %s", reflect.TypeOf(e))
	return ""
}

// ---- GenVersions ----
func genVersions(repo, out string) {
	root := load(repo)
	e, _, _, _ := root.valueSpec("roomVersionMeta")
	cl, ok := e.(*ast.CompositeLit)
	if !ok {
		fail("roomVersionMeta is not a composite literal")
	}
	ts := root.typeSpec("RoomVersionImpl")
	if ts == nil {
		fail("RoomVersionImpl not found")
	}
	st, ok := ts.Type.(*ast.StructType)
	if !ok {
		fail("RoomVersionImpl is not a struct")
	}
	var fields, funcFields []string
	isFunc := func(e ast.Expr) bool {
		if _, ok := e.(*ast.FuncType); ok {
			return true
		}
		if id, ok := e.(*ast.Ident); ok {
			if ts := root.typeSpec(id.Name); ts != nil {
				_, ok := ts.Type.(*ast.FuncType)
				return ok
			}
		}
		return false
	}
	for _, f := range st.Fields.List {
		for _, n := range f.Names {
			fields = append(fields, n.Name)
			if isFunc(f.Type) {
				funcFields = append(funcFields, n.Name)
			}
		}
	}
	var b strings.Builder
	b.WriteString(header)
	b.WriteString("(* every entry: version string, then (field name, value) pairs for the fields that are SET\n   in the composite literal; an unset field is absent (Go zero value: nil func / false / 0). *)\n")
	fmt.Fprintf(&b, "Definition gen_version_fields : list (list N) :=\n     %s.\n\n", coqBytesList(fields))
	b.WriteString("(* the fields of RoomVersionImpl whose type is a function type: a nil one is a crash when called *)\n")
	fmt.Fprintf(&b, "Definition gen_version_func_fields : list (list N) :=\n     %s.\n\n", coqBytesList(funcFields))
	type entry struct {
		name string
		kvs  [][2]string
	}
	var entries []entry
	for _, el := range cl.Elts {
		kve, ok := el.(*ast.KeyValueExpr)
		if !ok {
			fail("roomVersionMeta: unrecognised element")
		}
		name := root.versionName(kve.Key)
		impl, ok := kve.Value.(*ast.CompositeLit)
		if !ok {
			fail("roomVersionMeta[%s] is not a composite literal", name)
		}
		if id, ok := impl.Type.(*ast.Ident); !ok || id.Name != "RoomVersionImpl" {
			fail("roomVersionMeta[%s] is not a RoomVersionImpl literal", name)
		}
		en := entry{name: name}
		for _, fe := range impl.Elts {
			fkv, ok := fe.(*ast.KeyValueExpr)
			if !ok {
				fail("roomVersionMeta[%s]: positional field", name)
			}
			fname := fkv.Key.(*ast.Ident).Name
			var v string
			if fname == "ver" {
				v = root.versionName(fkv.Value)
			} else {
				v = root.exprName(fkv.Value)
			}
			en.kvs = append(en.kvs, [2]string{fname, v})
		}
		entries = append(entries, en)
	}
	sort.Slice(entries, func(i, j int) bool { return entries[i].name < entries[j].name })
	b.WriteString("Definition gen_versions : list (list N * list (list N * list N)) :=\n  [\n")
	for i, en := range entries {
		fmt.Fprintf(&b, "   (* %s *)\n   (%s,\n    [", en.name, coqBytes(en.name))
		for j, kv := range en.kvs {
			if j > 0 {
				b.WriteString(";\n     ")
			}
			fmt.Fprintf(&b, "(%s, %s) (* %s: %s *)", coqBytes(kv[0]), coqBytes(kv[1]), kv[0], kv[1])
		}
		b.WriteString("])")
		if i < len(entries)-1 {
			b.WriteString(";")
		}
		b.WriteString("\n")
	}
	b.WriteString("  ].\n")
	write(filepath.Join(out, "GenVersions.v"), b.String())
}

// ---- GenRedact ----
func genRedact(repo, out string) {
	root := load(repo)
	var b strings.Builder
	b.WriteString(header)
	// struct tags
	structs := []string{"unredactableEventFieldsV1", "unredactableEventFieldsV2"}
	b.WriteString("(* (struct, [(json key, omitempty, Go type)]) in declaration order *)\n")
	b.WriteString("Definition gen_redact_structs : list (list N * list (list N * bool * list N)) :=\n  [")
	for si, sn := range structs {
		ts := root.typeSpec(sn)
		if ts == nil {
			fail("%s not found", sn)
		}
		st, ok := ts.Type.(*ast.StructType)
		if !ok {
			fail("%s is not a struct", sn)
		}
		if si > 0 {
			b.WriteString(";\n   ")
		}
		fmt.Fprintf(&b, "(%s, (* %s *)\n    [", coqBytes(sn), sn)
		first := true
		for _, f := range st.Fields.List {
			if f.Tag == nil {
				fail("%s: field without tag", sn)
			}
			tag, _ := strconv.Unquote(f.Tag.Value)
			js := reflect.StructTag(tag).Get("json")
			if js == "" || js == "-" {
				fail("%s: field without json tag", sn)
			}
			parts := strings.Split(js, ",")
			omit := false
			for _, o := range parts[1:] {
				if o == "omitempty" {
					omit = true
				} else {
					fail("%s: unknown tag option %s", sn, o)
				}
			}
			ty := exprString(f.Type)
			if !first {
				b.WriteString(";\n     ")
			}
			first = false
			fmt.Fprintf(&b, "(%s, %v, %s) (* %s %s *)", coqBytes(parts[0]), omit, coqBytes(ty), parts[0], ty)
		}
		b.WriteString("])")
	}
	b.WriteString("].\n\n")
	// content maps
	var mapNames []string
	for _, f := range root.files {
		for _, d := range f.Decls {
			gd, ok := d.(*ast.GenDecl)
			if !ok || gd.Tok != token.VAR {
				continue
			}
			for _, s := range gd.Specs {
				vs := s.(*ast.ValueSpec)
				for _, n := range vs.Names {
					if strings.HasPrefix(n.Name, "unredactableContentFields") {
						mapNames = append(mapNames, n.Name)
					}
				}
			}
		}
	}
	sort.Strings(mapNames)
	b.WriteString("(* (map name, [(event type, [content keys])]); an empty key list means KEEP ALL *)\n")
	b.WriteString("Definition gen_redact_content_maps : list (list N * list (list N * list (list N))) :=\n  [")
	for mi, mn := range mapNames {
		e, _, _, _ := root.valueSpec(mn)
		cl, ok := e.(*ast.CompositeLit)
		if !ok {
			fail("%s is not a composite literal", mn)
		}
		if mi > 0 {
			b.WriteString(";\n   ")
		}
		fmt.Fprintf(&b, "(%s, (* %s *)\n    [", coqBytes(mn), mn)
		type ent struct {
			k  string
			vs []string
		}
		var ents []ent
		for _, el := range cl.Elts {
			kve, ok := el.(*ast.KeyValueExpr)
			if !ok {
				fail("%s: unrecognised element", mn)
			}
			k := root.eval(kve.Key, 0)
			vcl, ok := kve.Value.(*ast.CompositeLit)
			if !ok {
				fail("%s[%s]: not a literal", mn, k.s)
			}
			var vs []string
			for _, ve := range vcl.Elts {
				vs = append(vs, root.eval(ve, 0).s)
			}
			ents = append(ents, ent{k.s, vs})
		}
		sort.Slice(ents, func(i, j int) bool { return ents[i].k < ents[j].k })
		for i, en := range ents {
			if i > 0 {
				b.WriteString(";\n     ")
			}
			sort.Strings(en.vs)
			fmt.Fprintf(&b, "(%s, (* %s *) %s)", coqBytes(en.k), en.k, strings.ReplaceAll(coqBytesList(en.vs), "\n      ", " "))
		}
		b.WriteString("])")
	}
	b.WriteString("].\n\n")
	// wiring: redactEventJSONVn => (struct, map)
	b.WriteString("(* redaction function => (struct of kept top-level keys, content map) *)\n")
	b.WriteString("Definition gen_redact_wiring : list (list N * (list N * list N)) :=\n  [")
	var fnames []string
	for _, f := range root.files {
		for _, d := range f.Decls {
			if fd, ok := d.(*ast.FuncDecl); ok && fd.Recv == nil && strings.HasPrefix(fd.Name.Name, "redactEventJSONV") {
				fnames = append(fnames, fd.Name.Name)
			}
		}
	}
	sort.Strings(fnames)
	for i, fn := range fnames {
		fd := root.funcDecl(fn)
		if len(fd.Body.List) != 1 {
			fail("%s: expected a single return statement", fn)
		}
		rs, ok := fd.Body.List[0].(*ast.ReturnStmt)
		if !ok || len(rs.Results) != 1 {
			fail("%s: expected a single return statement", fn)
		}
		call, ok := rs.Results[0].(*ast.CallExpr)
		if !ok || len(call.Args) != 3 {
			fail("%s: expected redactEventJSON(eventJSON, &T{}, map)", fn)
		}
		if id, ok := call.Fun.(*ast.Ident); !ok || id.Name != "redactEventJSON" {
			fail("%s: does not call redactEventJSON", fn)
		}
		ue, ok := call.Args[1].(*ast.UnaryExpr)
		if !ok {
			fail("%s: second argument is not &T{}", fn)
		}
		scl, ok := ue.X.(*ast.CompositeLit)
		if !ok {
			fail("%s: second argument is not &T{}", fn)
		}
		sname := scl.Type.(*ast.Ident).Name
		mname := call.Args[2].(*ast.Ident).Name
		if i > 0 {
			b.WriteString(";\n   ")
		}
		fmt.Fprintf(&b, "(%s, (%s, %s)) (* %s: %s %s *)", coqBytes(fn), coqBytes(sname), coqBytes(mname), fn, sname, mname)
	}
	b.WriteString("].\n")
	write(filepath.Join(out, "GenRedact.v"), b.String())
}

func exprString(e ast.Expr) string {
	switch x := e.(type) {
	case *ast.Ident:
		return x.Name
	case *ast.SelectorExpr:
		return exprString(x.X) + "." + x.Sel.Name
	case *ast.MapType:
		return "map[" + exprString(x.Key) + "]" + exprString(x.Value)
	case *ast.InterfaceType:
		return "interface{}"
	case *ast.ArrayType:
		return "[]" + exprString(x.Elt)
	case *ast.StarExpr:
		return "*" + exprString(x.X)
	}
	return "?"
}

// write only when the content changed, so that make stays incremental
func write(path, content string) {
	old, err := os.ReadFile(path)
	if err == nil && string(old) == content {
		return
	}
	if err := os.MkdirAll(filepath.Dir(path), 0o755); err != nil {
		fail("%v", err)
	}
	if err := os.WriteFile(path, []byte(content), 0o644); err != nil {
		fail("%v", err)
	}
	fmt.Println("translator: wrote", path)
}

func main() {
	if len(os.Args) != 3 {
		fail("usage: translator <repo> <outdir>")
	}
	repo, out := os.Args[1], os.Args[2]
	var err error
	if repo, err = filepath.Abs(repo); err != nil {
		fail("%v", err)
	}
	if out, err = filepath.Abs(out); err != nil {
		fail("%v", err)
	}
	runGen("GenConsts", func() { genConsts(repo, out) })
	runGen("GenVersions", func() { genVersions(repo, out) })
	runGen("GenRedact", func() { genRedact(repo, out) })
	runGen("GenStrip", func() { genExtra(repo, out) })
	for i, g := range extraGens {
		g := g
		runGen(extraGenOutputs[i], func() { g(repo, out) })
	}
	if failures > 0 {
		os.Exit(2)
	}
}

// extraGens: further generators registered from other files of this package (one file per
// property that needs more tables: gen_cXX.go with func init() { registerGen(...) }).
var extraGens []func(repo, out string)

// the table a registered generator writes, from the name of the file that registers it:
// gen_cNN.go writes GenCNN.v (gen_c18.go: GenSites.v)
var extraGenOutputs []string

func registerGen(g func(repo, out string)) {
	extraGens = append(extraGens, g)
	name := "?"
	if _, file, _, ok := runtime.Caller(1); ok {
		base := strings.TrimSuffix(filepath.Base(file), ".go")
		switch {
		case base == "gen_c18":
			name = "GenSites"
		case strings.HasPrefix(base, "gen_c"):
			name = "GenC" + strings.TrimPrefix(base, "gen_c")
		}
	}
	extraGenOutputs = append(extraGenOutputs, name)
}
